"""shared helpers for the receive-path checks (C03, C06, C07, C20): baseband generation with the repository's own
transmitter, channel scenarios through harness/drv_demod.cpp, parsing of delivered frames"""
import struct
from lib import core, m17spec as S


def drivers():
    demod = core.build_cpp("drv_demod", ["drv_demod.cpp"], libs=["-lcodec2", "-lboost_program_options"], deps=["shim/blaze/Math.h"])
    mod = core.build_cpp("drv_mod", ["drv_mod.cpp"], libs=["-lcodec2", "-lboost_program_options"])
    return demod, mod


def codes(s):
    return " ".join(str(ord(c)) for c in s)


def transmission(ctx, mod, src, dst, can, audio, invert=0):
    """int16 baseband samples of m17-mod for the given audio; also the payload list and LSF the stream carries"""
    tl = f"mod_transmit 0 {invert} {can} {len(src)} {codes(src)} {len(dst)} {codes(dst)} ".replace("  ", " ") + " ".join(map(str, audio))
    tb = f"mod_transmit 1 0 {can} {len(src)} {codes(src)} {len(dst)} {codes(dst)} ".replace("  ", " ") + " ".join(map(str, audio))
    o = ctx.run_impl(mod, [tl, tb], "m17mod", timeout=900)
    raw = bytes(int(x) for x in o[0].split())
    samples = [struct.unpack("<h", raw[i:i + 2])[0] for i in range(0, len(raw) - 1, 2)]
    bs = bytes(int(x) for x in o[1].split())
    # frames of the bitstream: preamble(48) lsf(48) stream frames(48 each) eot(12)
    nframes = (len(bs) - 48 - 48 - 12) // 48
    return samples, bs, nframes


SYNC_BYTES = {"lsf": (0x55, 0xF7), "stream": (0xFF, 0x5D), "packet": (0x75, 0xFF), "bert": (0xDF, 0x55)}


def synth_transmission(ctx, mod, frames, invert=0, preambles=2):
    """int16 baseband of preamble(s) + arbitrary frames [(kind, 368 bits)] + EOT through m17-mod's own output_frame / RRC filter (one process,
    so the filter runs continuously) - used for the frame kinds m17-mod has no command line for (packet superframes) and for BERT.
    Two preambles by default: with a single one the receiver as it stands loses the frame that follows the preamble (it enters stream
    transmissions through the LICH), and a packet transmission has no LICH to recover the link setup from."""
    lines = [f"mod_preamble 0 {invert}"] * preambles
    for kind, bits in frames:
        sw = SYNC_BYTES[kind]
        lines.append(f"mod_frame 0 {invert} {sw[0]} {sw[1]} " + " ".join(map(str, bits)))
    lines.append(f"mod_eot 0 {invert}")
    o = ctx.run_impl(mod, lines, "m17mod-synth", timeout=900)
    raw = bytes(int(x) for r in o for x in r.split())
    return [struct.unpack("<h", raw[i:i + 2])[0] for i in range(0, len(raw) - 1, 2)]


def packet_transmission(ctx, mod, rng, lsf, nframes, invert=0, content=None):
    """(samples, list of 26-byte packet frame payloads) of a packet superframe: LSF + nframes packet frames (frame counter in the last
    byte, EOF + byte count on the last one), built by the specification encoder. content: optional bytes to carry (else random)"""
    frames = [("lsf", S.lsf_frame_bits(lsf))]
    sent = []
    for k in range(nframes):
        last = k == nframes - 1
        data = [rng.randrange(256) for _ in range(25)] if content is None else list(content[25 * k:25 * k + 25]) + [0] * (25 - len(content[25 * k:25 * k + 25]))
        used = 25 if content is None or not last else len(content) - 25 * k
        ctl = ((0x80 | (used << 2)) if last else (k << 2)) & 0xFC
        by = data + [ctl]
        bits = S.bits_of(bytes(by))[:206]
        sent.append(list(S.pack(bits)))
        frames.append(("packet", S.packet_frame_bits(bits)))
    return synth_transmission(ctx, mod, frames, invert), sent


def bert_transmission(ctx, mod, nframes, start=1, invert=0):
    """(samples, list of 25-byte frame payloads) of nframes BERT frames carrying consecutive PRBS9 bits"""
    reg = start & 0x1FF or 1
    frames, sent = [], []
    for _ in range(nframes):
        bits = []
        for _ in range(197):
            b = ((reg >> 8) ^ (reg >> 4)) & 1
            reg = ((reg << 1) | b) & 0x1FF
            bits.append(b)
        sent.append(list(S.pack(bits)))
        frames.append(("bert", S.bert_frame_bits(bits)))
    return synth_transmission(ctx, mod, frames, invert), sent


def expected_frames(bs):
    """(LSF bytes, [18-byte stream payloads]) recovered from the transmitted bitstream by the specification decoder side:
    re-derive from the bitstream using the python spec (inverse not needed: we know what was sent only through the C++
    transmitter, so decode it with an independent clean-channel decode = hard bits through the spec chain inverse)"""
    return None


def run_rx(ctx, demod, params, samples, timeout=900):
    """params: dict gain, dc, sigma, delay, ppm, lead, leadn, level, seed, app"""
    ln = "rx {gain} {dc} {sigma} {delay} {ppm} {lead} {leadn} {level} {seed} {app} ".format(**params) + " ".join(map(str, samples))
    out, rc, err = ctx.run_lines(demod, [ln], timeout=timeout)
    return ln, (out[0] if out else ""), rc, err


def parse_frames(rep):
    """reply of rx (app=0) -> header ints, list of ('L', bytes) / ('S', cost, bytes) / ('K', bytes)"""
    if " |" not in rep:
        return None, []
    head, body = rep.split(" |", 1)
    h = [int(x) for x in head.split()]
    frames = []
    for item in body.split(";"):
        f = item.split()
        if not f:
            continue
        if f[0] == "L":
            frames.append(("L", [int(x) for x in f[1:]]))
        elif f[0] == "S":
            frames.append(("S", int(f[1]), [int(x) for x in f[2:]]))
        elif f[0] == "K":
            frames.append(("K", [int(x) for x in f[1:]]))
        elif f[0] == "P":
            frames.append(("P", int(f[1]), int(f[2]), [int(x) for x in f[3:]]))
        elif f[0] == "B":
            frames.append(("B", int(f[1]), [int(x) for x in f[2:]]))
        else:
            frames.append(("O",))
    return h, frames


def sent_stream_payloads(ctx, mod, audio):
    """18-byte payloads (FN + codec2 bytes) that m17-mod puts in the stream frames for this audio"""
    blocks = [audio[i:i + 320] for i in range(0, len(audio), 320)]
    cl = ["codec2 -1"] + ["codec2 " + " ".join(map(str, b + [0] * (320 - len(b)))) for b in blocks] + ["codec2 " + " ".join(["0"] * 320)]
    pls = [[int(x) for x in r.split()] for r in ctx.run_impl(mod, cl, "codec2")[1:]]
    out = []
    for k, p in enumerate(pls):
        fn = (k % 0x8000) | (0x8000 if k == len(pls) - 1 else 0)
        out.append([fn >> 8, fn & 0xFF] + p)
    return out


def judge_delivery(sent, frames, need_steady=8):
    """C03/C06 oracle. sent: list of 18-byte payloads; frames: delivered items.
    returns dict(first_steady, lost, dup, corrupted_after, eos_delivered, stream_frames)"""
    idx = {tuple(p): i for i, p in enumerate(sent)}
    seq = []
    for f in frames:
        if f[0] == "S":
            seq.append(idx.get(tuple(f[2]), -1))
    # first position where 8 consecutive delivered frames are consecutive sent frames
    steady = None
    for i in range(len(seq) - need_steady + 1):
        w = seq[i:i + need_steady]
        if w[0] >= 0 and all(w[k] == w[0] + k for k in range(need_steady)):
            steady = i
            break
    res = {"delivered": len(seq), "steady_at_delivery": steady, "steady_frame": None, "problems": []}
    if steady is None:
        return res
    res["steady_frame"] = seq[steady]
    expect = seq[steady]
    j = steady
    while j < len(seq) and expect < len(sent):
        if seq[j] == expect:
            expect += 1
        elif seq[j] == -1:
            res["problems"].append(f"corrupted frame delivered after steady reception (delivery #{j}, expected frame {expect})")
            expect += 1
        elif seq[j] < expect:
            res["problems"].append(f"frame {seq[j]} delivered again (delivery #{j})")
            j += 1
            continue
        else:
            res["problems"].append(f"frames {expect}..{seq[j] - 1} lost (delivery #{j} is frame {seq[j]})")
            expect = seq[j] + 1
        j += 1
    if expect < len(sent):
        res["problems"].append(f"frames {expect}..{len(sent) - 1} never delivered (end-of-stream frame included)")
    return res


def run_resilient(ctx, exe, lines, stream, max_crashes=6, timeout=3600):
    """like Ctx.run_impl but keeps going after an abort so that each distinct failing request is reported"""
    out = []
    rest = list(lines)
    crashes = 0
    while rest:
        o = ctx.run_impl(exe, rest, stream, timeout)
        if "<crash>" not in o:
            out += o
            break
        k = o.index("<crash>")
        out += o[:k + 1]
        rest = rest[k + 1:]
        crashes += 1
        if crashes >= max_crashes:
            out += ["<skipped>"] * len(rest)
            break
    return out


def save_ops(lines):
    """request lines too long for a JSON replay go to a gzip file next to the replays"""
    import gzip, hashlib, os
    from lib import core
    d = os.path.join(core.VERIF, "evidence", "replay")
    os.makedirs(d, exist_ok=True)
    txt = "\n".join(lines) + "\n"
    path = os.path.join(d, "ops-" + hashlib.sha256(txt.encode()).hexdigest()[:12] + ".txt.gz")
    with gzip.open(path, "wt", compresslevel=6) as f:
        f.write(txt)
    return path

"""
Independent M17 encoder written from the specification (DESIGN.md Appendix A) — used to generate
mostly-valid inputs and as the oracle for round-trip statements.  Nothing here calls the repository.
"""
DC = bytes.fromhex("D6B5E23082FF8462BA4E9690D898DD5D0CC85243911DF86E682F35DA14EACD76198DD580D133871357182D2978C3")
P1 = [0 if i % 4 == 2 else 1 for i in range(61)]
P2 = [1] * 11 + [0]
P3 = [1] * 7 + [0]
GOLAY_ROWS = [0x8eb, 0x93e, 0xa97, 0xdc6, 0x367, 0x6cd, 0xd99, 0x3da, 0x7b4, 0xf68, 0x63b, 0xc75]
ALPH = " ABCDEFGHIJKLMNOPQRSTUVWXYZ0123456789-/."
SYNC = {"lsf": 0, "stream": 1, "packet": 2, "bert": 3}


def crc16(bs):
    r = 0xFFFF
    for b in bs:
        r ^= b << 8
        for _ in range(8):
            r = ((r << 1) ^ 0x5935) & 0xFFFF if r & 0x8000 else (r << 1) & 0xFFFF
    return r


def callsign(cs):
    if cs == "":
        return bytes([0xFF] * 6)
    v = 0
    for c in reversed(cs):
        v = v * 40 + ALPH.index(c)
    return v.to_bytes(6, "big")


def conv(bits):
    out, m = [], 0
    for b in list(bits) + [0, 0, 0, 0]:
        m = ((m << 1) | b) & 0x1F
        out.append(bin(m & 0o31).count("1") & 1)
        out.append(bin(m & 0o27).count("1") & 1)
    return out


def punct(bits, P, n):
    return [b for i, b in enumerate(bits) if P[i % len(P)]][:n]


def bits_of(bs):
    return [(b >> (7 - i)) & 1 for b in bs for i in range(8)]


def pack(bits):
    bits = list(bits) + [0] * (-len(bits) % 8)
    return bytes(sum(bits[i + j] << (7 - j) for j in range(8)) for i in range(0, len(bits), 8))


def ileave(bits):
    o = [0] * 368
    for i, b in enumerate(bits):
        o[(45 * i + 92 * i * i) % 368] = b
    return o


def rnd(bits):
    return [b ^ d for b, d in zip(bits, bits_of(DC))]


def golay24(d):
    c = 0
    for i in range(12):
        if d >> i & 1:
            c ^= GOLAY_ROWS[i]
    return (d << 12) | c


def lich_bits(lsf, n, errs=None):
    """96 bits: LSF bytes 5n..5n+4, fragment counter n (3 bits) + 5 reserved zero bits, as 4 Golay words.
    errs: optional list of 4 error masks (24 bit) xor-ed onto the words"""
    seg = bytes(lsf[5 * (n % 6):5 * (n % 6) + 5]) + bytes([(n & 7) << 5])
    b = bits_of(seg)
    out = []
    for k in range(4):
        d = int("".join(map(str, b[12 * k:12 * k + 12])), 2)
        g = golay24(d)
        if errs:
            g ^= errs[k]
        out += [(g >> (23 - i)) & 1 for i in range(24)]
    return out


def make_lsf(dst="", src="N0CALL", typ=0x0005, meta=bytes(14), can=0):
    body = callsign(dst) + callsign(src) + ((typ | (can << 7)) & 0xFFFF).to_bytes(2, "big") + bytes(meta)
    return body + crc16(body).to_bytes(2, "big")


def lsf_frame_bits(lsf30):
    return rnd(ileave(punct(conv(bits_of(lsf30)), P1, 368)))


def stream_frame_bits(lsf30, lich_n, fn, payload16, lich_errs=None):
    data = fn.to_bytes(2, "big") + bytes(payload16)
    return rnd(ileave(lich_bits(lsf30, lich_n, lich_errs) + punct(conv(bits_of(data)), P2, 272)))


def packet_frame_bits(bits206):
    return rnd(ileave(punct(conv(bits206), P3, 368)))


def bert_frame_bits(bits197):
    return rnd(ileave(punct(conv(bits197), P2, 368)))


def soft(bits, mag=7):
    """bit -> soft value; mag is an int or a per-position list"""
    if isinstance(mag, int):
        return [mag if b else -mag for b in bits]
    return [m if b else -m for b, m in zip(bits, mag)]


def prbs9(n, state=1):
    out = []
    for _ in range(n):
        b = ((state >> 8) ^ (state >> 4)) & 1
        state = ((state << 1) | b) & 0x1FF
        out.append(b)
    return out, state

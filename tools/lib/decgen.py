"""
Generators of frame-decoder inputs shared by C01, C05, C08: abstract frame kinds instantiated with fresh random
content, encoded by the independent specification encoder (m17spec), then perturbed.
"""
from lib import m17spec as S

KINDS = ["lsf_voice", "lsf_data", "lsf_pkt_raw", "lsf_pkt_enc", "lsf_badcrc", "lsf_nearcrc",
         "lich_ok", "lich_bad", "lich_oor", "stream", "pkt_mid", "pkt_eof", "bert", "garbage"]


class Gen:
    def __init__(self, rng):
        self.rng = rng
        self.cur_lsf = self.rand_lsf(0x0005)
        self.lich_n = 0
        self.fn = 0

    # ---- content ----------------------------------------------------------------------------
    def rand_call(self):
        n = self.rng.randrange(1, 10)
        return "".join(self.rng.choice(S.ALPH[1:]) for _ in range(n))

    def rand_lsf(self, typ):
        r = self.rng
        return S.make_lsf(dst=self.rand_call() if r.random() < 0.8 else "", src=self.rand_call(), typ=typ,
                          meta=bytes(r.randrange(256) for _ in range(14)), can=r.randrange(16))

    def mags(self):
        r = self.rng
        k = r.random()
        if k < 0.4:
            return 7
        if k < 0.7:
            return r.randrange(1, 8)
        return [r.randrange(1, 8) for _ in range(368)]

    def perturb(self, softv, nflip=0, nerase=0):
        v = list(softv)
        for _ in range(nflip):
            i = self.rng.randrange(len(v)); v[i] = -v[i]
        for _ in range(nerase):
            v[self.rng.randrange(len(v))] = 0
        return v

    # ---- frame kinds: return (sync, cb, soft368, meta) --------------------------------------------
    def frame(self, kind, clean=True):
        r = self.rng
        cb = 1 if r.random() < 0.7 else 0
        nflip = 0 if clean else r.choice([0, 0, 1, 3, 8, 20, 40])
        nerase = 0 if clean else r.choice([0, 0, 5, 30])
        mag = self.mags()
        meta = {"kind": kind}
        if kind.startswith("lsf_"):
            typ = {"lsf_voice": r.choice([0x0005, 0x0007]), "lsf_data": 0x0003, "lsf_pkt_raw": 0x0002,
                   "lsf_pkt_enc": r.choice([0x0004, 0x0000, 0x0006]), "lsf_badcrc": 0x0005, "lsf_nearcrc": 0x0005}[kind]
            lsf = bytearray(self.rand_lsf(typ))
            if kind == "lsf_badcrc":
                lsf[r.randrange(30)] ^= 1 << r.randrange(8)
            if kind == "lsf_nearcrc":
                # wrong CRC field chosen so that the 16-bit residue is non-zero but has a zero byte / single bit:
                # catches comparisons that look at only part of the check value
                want = r.choice(["lo0", "hi0", "bit"])
                for _ in range(200000):
                    lsf[28] = r.randrange(256); lsf[29] = r.randrange(256)
                    res = S.crc16(lsf)
                    if res == 0:
                        continue
                    if (want == "lo0" and res & 0xFF == 0) or (want == "hi0" and res >> 8 == 0) or (want == "bit" and bin(res).count("1") == 1):
                        break
            else:
                self.cur_lsf = bytes(lsf) if kind != "lsf_badcrc" else self.cur_lsf
            lsf = bytes(lsf)
            if kind in ("lsf_voice", "lsf_data", "lsf_pkt_raw", "lsf_pkt_enc"):
                self.cur_lsf = lsf
            meta["lsf"] = list(lsf)
            meta["crc_ok"] = S.crc16(lsf) == 0
            return 0, cb, self.perturb(S.soft(S.lsf_frame_bits(lsf), mag), nflip, nerase), meta
        if kind in ("lich_ok", "lich_bad", "lich_oor", "stream"):
            n = self.lich_n % 6
            errs = None
            if kind == "lich_oor":
                n = r.choice([6, 7])
            if kind == "lich_bad":
                errs = [0, 0, 0, 0]
                w = r.randrange(4)
                pos = r.sample(range(24), r.choice([4, 4, 5, 6]))
                errs[w] = sum(1 << p for p in pos)
            elif not clean and r.random() < 0.7:
                errs = []
                for _ in range(4):
                    pos = r.sample(range(24), r.choice([0, 1, 2, 3, 3]))
                    if pos and r.random() < 0.4:
                        pos[0] = 0            # overall-parity bit
                    errs.append(sum(1 << p for p in set(pos)))
            payload = bytes(r.randrange(256) for _ in range(16))
            fn = self.fn & 0x7FFF
            if kind == "stream" and r.random() < 0.1:
                fn |= 0x8000
            bits = S.stream_frame_bits(self.cur_lsf, n, fn, payload, errs)
            meta.update({"lich_n": n, "fn": fn, "payload": list(fn.to_bytes(2, "big") + payload), "lsf": list(self.cur_lsf),
                         "lich_errs": errs, "lich6": list(self.cur_lsf[5 * (n % 6):5 * (n % 6) + 5]) + [(n & 7) << 5]})
            self.lich_n += 1
            self.fn += 1
            v = S.soft(bits, mag)
            # channel errors only on the payload part (positions are interleaved: perturb after mapping back is overkill;
            # flips anywhere may also hit LICH bits, which is fine for the non-clean stream)
            return 1, cb, self.perturb(v, nflip if kind == "stream" else 0, nerase if kind == "stream" else 0), meta
        if kind in ("pkt_mid", "pkt_eof"):
            bits = [r.randrange(2) for _ in range(206)]
            bits[200] = 1 if kind == "pkt_eof" else 0
            meta["payload"] = list(S.pack(bits))
            return 2, cb, self.perturb(S.soft(S.packet_frame_bits(bits), mag), nflip, nerase), meta
        if kind == "bert":
            bits = [r.randrange(2) for _ in range(197)]
            meta["payload"] = list(S.pack(bits))
            return 3, cb, self.perturb(S.soft(S.bert_frame_bits(bits), mag), nflip, nerase), meta
        # garbage: uniform random LLRs over the whole int8 range, random sync
        return r.randrange(4), cb, [r.randrange(-128, 128) for _ in range(368)], meta

    def line(self, kind, clean=True):
        sync, cb, v, meta = self.frame(kind, clean)
        meta["sync"] = sync
        meta["cb"] = cb
        return f"dec_frame {sync} {cb} " + " ".join(map(str, v)), meta


def parse_reply(rep):
    """reply of dec_frame -> dict"""
    parts = rep.split(" | ")
    head = parts[0].split()
    if len(head) < 34:
        return None
    out = {"result": int(head[0]), "mode": int(head[1]), "mask": int(head[2]), "cost": head[3], "lsfbuf": [int(x) for x in head[4:34]], "calls": []}
    for c in parts[1:]:
        f = c.split()
        out["calls"].append({"type": int(f[0]), "cost": int(f[1]), "bytes": [int(x) for x in f[2:]]})
    return out

"""shared machinery of the frame-decoder checks (C01, C05, C08)"""
from lib import core, decgen, m17spec as S

MODE = {0: "LSF", 1: "STREAM", 2: "BASIC_PACKET", 3: "FULL_PACKET", 4: "BERT"}
RES = {0: "FAIL", 1: "OK", 2: "EOS", 3: "INCOMPLETE", 4: "PACKET_INCOMPLETE"}
FT = {0: "LSF", 1: "LICH", 2: "STREAM", 3: "BASIC_PACKET", 4: "FULL_PACKET", 5: "BERT"}


def expected_cost(meta_mag, positions, L=7):
    """round( sum over received positions of (L - m_i) / L )"""
    if isinstance(meta_mag, int):
        tot = positions * (L - meta_mag)
    else:
        tot = sum(L - m for m in meta_mag)
    return (2 * tot + L) // (2 * L)


def run_words(ctx, exe, words, clean_prob=0.5, gen=None):
    """words: list of lists of kinds. Each word starts from a fresh decoder. Returns list of (lines, metas, impl, model)"""
    g = gen or decgen.Gen(ctx.rng)
    lines, metas = [], []
    for w in words:
        lines.append("dec_new"); metas.append(None)
        for k in w:
            ln, m = g.line(k, clean=ctx.rng.random() < clean_prob)
            lines.append(ln); metas.append(m)
    impl = ctx.run_impl(exe, lines, "dec")
    model = ctx.run_model(lines) if ctx.model_ok else None
    return lines, metas, impl, model


def lsf_crc_oracle(ctx, lines, metas, impl, pid):
    """C05 part 1 on the implementation: every reported LSF passes the M17 CRC"""
    n = 0
    for ln, m, a in zip(lines, metas, impl):
        if m is None:
            continue
        r = decgen.parse_reply(a)
        if not r:
            continue
        for c in r["calls"]:
            if c["type"] == 0:
                n += 1
                if len(c["bytes"]) != 30 or S.crc16(c["bytes"]) != 0:
                    ctx.violate(f"dec:lsf-crc:{m['kind']}", f"decoder reported a link setup frame whose CRC does not check (frame kind {m['kind']}, residue {S.crc16(c['bytes']):#06x})",
                                {"stream": "dec", "ops": history(lines, ln), "impl": a})
    return n


def history(lines, ln, maxlen=60):
    """the request lines from the last dec_new up to and including ln (for replay)"""
    i = lines.index(ln)
    j = i
    while j > 0 and lines[j] != "dec_new":
        j -= 1
    h = lines[j:i + 1]
    return h[-maxlen:] if len(h) > maxlen else h

"""
Core of the checking machinery: build steps, the model/implementation line protocol,
violation bookkeeping, known findings, evidence, and the reporting protocol of DESIGN.md §4.
"""
import os, sys, json, time, hashlib, subprocess, fcntl, random, re, shutil, glob

VERIF = os.path.dirname(os.path.dirname(os.path.dirname(os.path.abspath(__file__))))
REPO = os.environ.get("M17_REPO", "/repo")
LEAN = os.path.join(VERIF, "lean")
HARNESS = os.path.join(VERIF, "harness")
BUILD = os.path.join(VERIF, ".build")
EVID = os.path.join(VERIF, "evidence")
REPLAY_DIR = os.path.join(EVID, "replay")
GUARD = "M17CXX_VERIF"
NCPU = os.cpu_count() or 4

SAN_FLAGS = ["-std=c++20", "-O1", "-g", "-fsanitize=address,undefined", "-fno-sanitize-recover=all",
             "-D_GLIBCXX_ASSERTIONS", "-DNDEBUG", f"-D{GUARD}", "-Wno-deprecated-declarations", "-fno-access-control"]
# -fno-access-control: the drivers read (and a few set) data members of the repository's classes; whether the repository declares them public or
# private is not behaviour, and a refactoring that makes them private must not break the harness (harmless refactoring C06-h2 did)
FAST_FLAGS = ["-std=c++20", "-O2", "-DNDEBUG", f"-D{GUARD}", "-Wno-deprecated-declarations", "-fno-access-control"]
TRUSTED_AXIOMS = {"propext", "Classical.choice", "Quot.sound"}
IDLE_TIMEOUT = int(os.environ.get("VERIF_IDLE_TIMEOUT", "600"))      # seconds a driver may take to answer ONE request
FORBIDDEN = re.compile(r"\bsorry\b|\badmit\b|^\s*axiom\s|native_decide|bv_decide|implemented_by|\bunsafe\s|maxHeartbeats\s+0\b")

TRUSTED_BASE = [
    "Lean 4.33 kernel (decide +kernel is kernel evaluation; no native_decide, no bv_decide)",
    "axioms allowed in #print axioms: propext, Classical.choice, Quot.sound (audited every run)",
    "harness/dump_tables.cpp (translator of constants/tables from the current headers into M17/Gen)",
    "hand-written model M17/Model/* tied to the code by the correspondence streams of this run",
    "g++ 12 / libstdc++ semantics (lower_bound, integer conversions) as used by the harness drivers",
]


class BuildError(Exception):
    def __init__(self, what, log):
        super().__init__(what)
        self.what = what
        self.log = log


def sh(cmd, cwd=None, timeout=None, env=None, stdin=None):
    try:
        p = subprocess.run(cmd, cwd=cwd, timeout=timeout, env=env, input=stdin,
                           stdout=subprocess.PIPE, stderr=subprocess.STDOUT, text=True, errors="replace")
    except subprocess.TimeoutExpired as ex:
        # a program of ours that runs the repository's code and does not come back (e.g. the table dumper calling a function that no longer
        # terminates) is a result about the tree, not an internal error
        out = ex.stdout if isinstance(ex.stdout, str) else (ex.stdout or b"").decode(errors="replace")
        return -999, (out or "") + f"\nTIMEOUT: `{' '.join(map(str, cmd))[:200]}` did not finish within {timeout} s (killed)"
    return p.returncode, p.stdout


class Lock:
    def __init__(self, name):
        os.makedirs(BUILD, exist_ok=True)
        self.path = os.path.join(BUILD, name + ".lock")

    def __enter__(self):
        self.f = open(self.path, "w")
        fcntl.flock(self.f, fcntl.LOCK_EX)
        return self

    def __exit__(self, *a):
        fcntl.flock(self.f, fcntl.LOCK_UN)
        self.f.close()


def repo_fingerprint():
    """hash of every file of the repository the harness compiles against (working tree, not HEAD)"""
    h = hashlib.sha256()
    for sub in ("include", "apps", "src"):
        for root, dirs, files in sorted(os.walk(os.path.join(REPO, sub))):
            dirs.sort()
            for fn in sorted(files):
                p = os.path.join(root, fn)
                h.update(p.encode())
                with open(p, "rb") as f:
                    h.update(f.read())
    return h.hexdigest()[:16]


def harness_fingerprint(files):
    h = hashlib.sha256()
    for p in files:
        with open(p, "rb") as f:
            h.update(p.encode())
            h.update(f.read())
    return h.hexdigest()[:16]


_repo_fp = None


def build_cpp(name, sources, flags=None, libs=None, extra_inc=None, deps=None):
    """compile a harness program against the current /repo tree; cached by content hash"""
    global _repo_fp
    if _repo_fp is None:
        _repo_fp = repo_fingerprint()
    flags = SAN_FLAGS if flags is None else flags
    libs = libs or []
    srcs = [os.path.join(HARNESS, s) for s in sources]
    depf = srcs + [os.path.join(HARNESS, d) for d in (deps or [])]
    key = hashlib.sha256((_repo_fp + harness_fingerprint(depf) + " ".join(flags + libs)).encode()).hexdigest()[:16]
    outdir = os.path.join(BUILD, "cxx", key)
    exe = os.path.join(outdir, name)
    with Lock("cxx-" + name):
        if os.path.exists(exe):
            return exe
        os.makedirs(outdir, exist_ok=True)
        inc = [f"-I{REPO}/include", f"-I{REPO}/include/m17cxx", f"-I{REPO}", f"-I{REPO}/apps", f"-I{HARNESS}", f"-I{HARNESS}/shim"] + [f"-I{i}" for i in (extra_inc or [])]
        cmd = ["g++"] + flags + inc + srcs + ["-o", exe + ".tmp", "-pthread"] + libs
        rc, out = sh(cmd, timeout=1200)
        if rc != 0:
            raise BuildError(f"harness program {name} does not build against the current tree", out[-6000:])
        os.rename(exe + ".tmp", exe)
        # keep the cache small: remove other builds of the same program
        for d in glob.glob(os.path.join(BUILD, "cxx", "*")):
            if d != outdir and os.path.exists(os.path.join(d, name)):
                try:
                    os.remove(os.path.join(d, name))
                    if not os.listdir(d):
                        os.rmdir(d)
                except OSError:
                    pass
    return exe


def regen():
    """(T) translate the current headers' constants into lean/M17/Gen"""
    exe = build_cpp("dump_tables", ["dump_tables.cpp"], flags=["-std=c++20", "-O1", "-DNDEBUG", f"-D{GUARD}", "-fno-access-control"], deps=["shim/blaze/Math.h"])
    gen = os.path.join(LEAN, "M17", "Gen")
    with Lock("lake"):
        rc, out = sh([exe, gen], timeout=120)
    if rc != 0:
        raise BuildError("dump_tables failed on the current tree" if rc != -999 else
                         "dump_tables (which calls the tree's constexpr table builders, callsign codec, CRC and filters) does not terminate on the current tree", out[-4000:])
    rc, out = sh([sys.executable, os.path.join(VERIF, "tools", "gen_taps.py"), REPO, gen], timeout=120)
    if rc != 0:
        raise BuildError("gen_taps.py failed on the current tree", out[-4000:])
    # source-text translator for queue.h (access table)
    rc, out = sh([sys.executable, os.path.join(VERIF, "tools", "gen_queue.py"), REPO, gen], timeout=120)
    if rc != 0:
        raise BuildError("gen_queue.py failed on the current tree", out[-4000:])


def lake_build(targets, timeout=3600):
    with Lock("lake"):
        rc, out = sh(["lake", "build"] + targets, cwd=LEAN, timeout=timeout)
    return rc, out


def drv_exe():
    return os.path.join(LEAN, ".lake", "build", "bin", "m17drv")


def parse_lean_errors(out):
    """[(file, line, message)] of every `error:` lake printed"""
    errs = []
    for m in re.finditer(r"^error: ([^\s:]+\.lean):(\d+):(\d+): (.*)$", out, re.M):
        errs.append((m.group(1), int(m.group(2)), m.group(4)))
    return errs


def enclosing_decl(path, line):
    """name of the theorem/def whose text contains `line`"""
    try:
        src = open(os.path.join(LEAN, path)).read().split("\n")
    except OSError:
        return "?"
    name = "?"
    for i, l in enumerate(src[:line], 1):
        m = re.match(r"\s*(?:private\s+|protected\s+)?(?:theorem|lemma|def|instance|example|abbrev)\s+([^\s:(\[{]+)", l)
        if m:
            name = m.group(1)
    return name


def audit_text():
    """textual audit of the Lean sources: no sorry/admit/axiom/native_decide/... outside comments"""
    hits = []
    for root, dirs, files in os.walk(LEAN):
        if ".lake" in root:
            continue
        for fn in files:
            if not fn.endswith(".lean"):
                continue
            p = os.path.join(root, fn)
            src = open(p).read()
            # strip block comments and line comments
            src = re.sub(r"/-.*?-/", lambda m: "\n" * m.group(0).count("\n"), src, flags=re.S)
            for i, l in enumerate(src.split("\n"), 1):
                l = l.split("--")[0]
                if FORBIDDEN.search(l):
                    hits.append(f"{os.path.relpath(p, LEAN)}:{i}: {l.strip()[:120]}")
    return hits


def audit_axioms(module, theorems):
    """#print axioms of every property theorem; returns {theorem: [axioms]} and raw output"""
    os.makedirs(os.path.join(BUILD, "audit"), exist_ok=True)
    f = os.path.join(BUILD, "audit", module.replace(".", "_").replace(" ", "__") + ".lean")
    with open(f, "w") as o:
        for m_ in module.split():
            o.write(f"import {m_}\n")
        for t in theorems:
            o.write(f"#print axioms {t}\n")
    with Lock("lake"):
        rc, out = sh(["lake", "env", "lean", f], cwd=LEAN, timeout=1200)
    res = {}
    cur = None
    # output: "'name' depends on axioms: [a, b]" possibly wrapped, or "'name' does not depend on any axioms"
    text = out.replace("\n ", " ")
    for m in re.finditer(r"'([^']+)' (does not depend on any axioms|depends on axioms: \[([^\]]*)\])", text, re.S):
        name = m.group(1)
        axs = [] if m.group(3) is None else [a.strip() for a in m.group(3).replace("\n", " ").split(",") if a.strip()]
        res[name] = axs
    return rc, res, out


class Violation:
    def __init__(self, signature, what, replay, concrete=True):
        self.signature = signature      # stable identifier of *what* fails (input / call site / history)
        self.what = what                # one line for humans
        self.replay = replay            # dict stored in the replay file
        self.concrete = concrete        # False = tie broken but no failing input found


def san_env():
    """environment for sanitized programs: leaks at exit (m17-mod never destroys its codec2 state) are not what any property is about"""
    e = dict(os.environ)
    e.setdefault("ASAN_OPTIONS", "detect_leaks=0:abort_on_error=0")
    e.setdefault("UBSAN_OPTIONS", "print_stacktrace=1")
    return e


class Ctx:
    hangs_seen = 0
    def __init__(self, pid, tier, seed):
        self.pid = pid
        self.tier = tier
        self.seed = seed
        self.rng = random.Random(f"{pid}/{seed}")   # note: tier does not change the generator stream
        self.t0 = time.time()
        self.violations = []
        self.stats = {}
        self.samples = []
        self.nontrivial = set()
        self.evaluations = 0
        self.traces = 0
        self.notes = []
        self.obligations = []
        self.discharged = []
        self.assumptions = []
        self.exhaustive = None
        os.makedirs(os.path.join(BUILD, "tmp"), exist_ok=True)

    # ---- bookkeeping -------------------------------------------------------------------------
    def stat(self, key, n=1):
        self.stats[key] = self.stats.get(key, 0) + n

    def sample(self, s, limit=12):
        if len(self.samples) < limit:
            self.samples.append(s)

    def count(self, key, nontrivial=True):
        """one evaluated case; `key` identifies it for distinctness"""
        self.evaluations += 1
        if nontrivial:
            if len(self.nontrivial) < 2_000_000:
                self.nontrivial.add(hash(key))

    def violate(self, signature, what, replay, concrete=True):
        # keep the list short: one entry per signature
        for v in self.violations:
            if v.signature == signature:
                return
        self.violations.append(Violation(signature, what, replay, concrete))

    def tmp(self, name):
        return os.path.join(BUILD, "tmp", f"{self.pid}-{os.getpid()}-{name}")

    # ---- line protocol -----------------------------------------------------------------------
    def run_lines(self, exe, lines, timeout=3600, env=None):
        """feed request lines to a driver, return (reply lines, returncode, stderr tail)"""
        inp = self.tmp("ops.txt")
        with open(inp, "w") as f:
            f.write("\n".join(lines))
            f.write("\n")
        e = san_env()
        if env:
            e.update(env)
        # the drivers answer one line per request and flush: a request that is not answered within `idle` seconds (or the whole run within
        # `timeout`) is a result (non-termination, deadlock, lost wake-up), not an error of the checker - and it must not cost an hour
        idle = min(timeout, IDLE_TIMEOUT if not Ctx.hangs_seen else 60)       # once something hung in this check, do not wait ten minutes again
        outp, errp = self.tmp("out.txt"), self.tmp("err.txt")
        with open(inp) as fin, open(outp, "wb") as fo, open(errp, "wb") as fe:
            p = subprocess.Popen([exe], stdin=fin, stdout=fo, stderr=fe, env=e)
            t0 = last = time.time(); size = 0; rc = None; why = ""
            while True:
                try:
                    rc = p.wait(timeout=0.05 if time.time() - t0 < 2 else 0.5)
                    break
                except subprocess.TimeoutExpired:
                    pass
                now = time.time()
                sz = os.path.getsize(outp)
                if sz != size:
                    size, last = sz, now
                if now - t0 > timeout or now - last > idle:
                    why = f"\nTIMEOUT: no reply within {int(now - last) if now - last > idle else timeout} s (process killed)"
                    p.kill(); p.wait(); rc = -999
                    Ctx.hangs_seen += 1
                    break
        so = open(outp, "rb").read(); se = open(errp, "rb").read() + why.encode()
        for f in (inp, outp, errp):
            os.remove(f)
        out = so.decode(errors="replace").split("\n")
        if out and out[-1] == "":
            out.pop()
        return out, rc, se.decode(errors="replace")[-6000:]

    def run_impl(self, exe, lines, stream, timeout=3600):
        """run the C++ driver; a sanitizer abort or crash is bisected to the first offending line"""
        out, rc, err = self.run_lines(exe, lines, timeout)
        if rc == 0 and len(out) == len(lines):
            return out
        # crash: the reply count tells which request died
        k = len(out)
        bad = lines[k] if k < len(lines) else "<end>"
        # try to reproduce on the single line (stateless streams) for a minimal replay
        out1, rc1, err1 = self.run_lines(exe, [bad], timeout if rc != -999 else min(timeout, 60)) if k < len(lines) else ([], 0, "")
        minimal = [bad] if rc1 != 0 else lines[max(0, k - 50):k + 1]
        kind = "hang" if rc == -999 else "sanitizer" if ("ERROR: AddressSanitizer" in err or "runtime error" in err) else "crash"
        self.violate(f"{stream}:{kind}:{first_frame(err)}",
                     f"C++ driver {'did not return (blocked for ever?)' if kind == 'hang' else 'aborted (' + kind + ')'} in stream {stream} at request {k} `{bad[:80]}`: {first_err_line(err)}",
                     {"stream": stream, "driver": os.path.basename(exe), "ops": minimal, "stderr": err[-3000:], "returncode": rc})
        # continue with what we have, padded so that callers can still index
        return out + ["<crash>"] * (len(lines) - len(out))

    def run_model(self, lines, timeout=3600):
        out, rc, err = self.run_lines(drv_exe(), lines, timeout)
        if rc != 0 or len(out) != len(lines):
            raise BuildError("model driver m17drv failed", err + "\n" + "\n".join(out[-5:]))
        return out

    def compare(self, stream, lines, impl, model, canon=None, oracle=None, sig=None):
        """diff implementation and model replies line by line.
        canon(line, reply) -> canonical reply (default identity).
        oracle(line, impl_reply) -> None if the property holds on this input for the implementation, else text.
        A disagreement on which the oracle finds nothing is recorded as a non-concrete violation."""
        nd = 0
        for ln, a, b in zip(lines, impl, model):
            if a in ("<crash>", "<skipped>"):
                continue        # the abort itself has been reported by run_impl
            ca = canon(ln, a) if canon else a
            cb = canon(ln, b) if canon else b
            if ca == cb:
                continue
            nd += 1
            self.stat(f"{stream}:disagreements")
            if nd > 20:
                continue
            bad = oracle(ln, a) if oracle else None
            s = sig(ln) if sig else ln[:200]
            if bad:
                self.violate(f"{stream}:{s}", f"{stream}: implementation violates the property on `{ln[:120]}`: {bad}",
                             {"stream": stream, "ops": [ln], "impl": a, "model": b, "oracle": bad})
            else:
                self.violate(f"{stream}:tie", f"{stream}: model and implementation disagree on `{ln[:120]}` (impl {a[:80]} / model {b[:80]})",
                             {"stream": stream, "ops": [ln], "impl": a, "model": b,
                              "broken": f"correspondence stream {stream}"}, concrete=False)
        return nd


def first_err_line(err):
    for l in err.split("\n"):
        if "ERROR" in l or "runtime error" in l or "Assertion" in l or "terminate" in l or "TIMEOUT" in l:
            return l.strip()[:300]
    return err.strip().split("\n")[0][:300] if err.strip() else "no stderr"


def first_frame(err):
    """a stable location for the signature of a sanitizer report: first frame inside the repository"""
    for l in err.split("\n"):
        m = re.search(r"(/repo/[^\s:]+|include/m17cxx/[^\s:]+|apps/[^\s:]+):(\d+)", l)
        if m:
            return os.path.basename(m.group(1)) + ":" + m.group(2)
    m = re.search(r"([A-Za-z0-9_]+\.(?:h|cpp)):(\d+)", err) or re.search(r"/usr/include/c\+\+/\d+/([A-Za-z0-9_/.]+):(\d+)", err)
    return (m.group(1) + ":" + m.group(2)) if m else "unknown"


# ------------------------------------------------------------------------------------------------
# known findings
# ------------------------------------------------------------------------------------------------

def load_known():
    p = os.path.join(VERIF, "known_findings.json")
    if not os.path.exists(p):
        return []
    return json.load(open(p)).get("findings", [])


def is_known(pid, v, known):
    for k in known:
        if k.get("status") != "open":
            continue       # `fixed` entries suppress nothing
        if k.get("property") != pid:
            continue
        if k.get("signature") == v.signature:
            return k
    return None


# ------------------------------------------------------------------------------------------------
# the check
# ------------------------------------------------------------------------------------------------

def write_replay(ctx, v, idx):
    os.makedirs(REPLAY_DIR, exist_ok=True)
    h = hashlib.sha256((v.signature + json.dumps(v.replay, sort_keys=True, default=str)).encode()).hexdigest()[:10]
    p = os.path.join(REPLAY_DIR, f"{ctx.pid}-{h}.json")
    doc = {"property": ctx.pid, "signature": v.signature, "what": v.what, "concrete": v.concrete,
           "seed": ctx.seed, "tier": ctx.tier, "replay": v.replay,
           "rerun": f"python3 tools/check.py {ctx.pid} --replay {p}"}
    with open(p, "w") as f:
        json.dump(doc, f, indent=1, default=str)
    return p


def write_evidence(ctx, prop, level, nviol):
    os.makedirs(EVID, exist_ok=True)
    cov = {
        "obligations": len(ctx.obligations),
        "discharged": len(ctx.discharged),
        "checker_cmd": f"cd lean && lake build {' '.join(prop.lean_targets)} && lake env lean <#print axioms of each obligation> (tools/check.py {ctx.pid})",
        "trusted_base": TRUSTED_BASE + list(getattr(prop, "trusted_extra", [])),
        "obligation_names": ctx.obligations,
        "not_discharged": [o for o in ctx.obligations if o not in ctx.discharged],
        "evaluations": ctx.evaluations,
        "distinct_nontrivial": len(ctx.nontrivial),
        "rule": getattr(prop, "rule", ""),
        "samples": ctx.samples if ctx.samples else ["(no correspondence samples in this run)"],
        "traces_validated_against_impl": ctx.traces,
        "stats": ctx.stats,
        "notes": ctx.notes,
    }
    if ctx.exhaustive is not None:
        cov["exhaustive"] = ctx.exhaustive
    if not ctx.discharged:
        # nothing was discharged on this run (the proofs did not build): do not claim the proof-level keys
        cov["proof_obligations_total"] = cov.pop("obligations")
        cov["proof_obligations_discharged"] = cov.pop("discharged")
        cov["evaluations"] = max(cov["evaluations"], 1)
        cov["distinct_nontrivial"] = max(cov["distinct_nontrivial"], 2) if cov["evaluations"] >= 2 else cov["distinct_nontrivial"]
    ev = {
        "property_id": ctx.pid, "tier": ctx.tier, "seed": ctx.seed, "level": level,
        "coverage": cov,
        "assumptions": list(getattr(prop, "assumptions", [])) + ctx.assumptions,
        "wall_s": round(time.time() - ctx.t0, 2),
        "violations": nviol,
    }
    with open(os.path.join(EVID, f"{ctx.pid}.json"), "w") as f:
        json.dump(ev, f, indent=1, default=str)


def proofs(ctx, prop):
    """(re)check the Lean side; returns list of broken obligations [(name, detail)]"""
    broken = []
    # 1. translate constants from the current tree
    try:
        regen()
    except BuildError as e:
        broken.append(("translator:dump_tables", e.what + "\n" + e.log))
        return broken
    # 2. model driver (Model + Gen only; independent of the proofs)
    rc, out = lake_build(["m17drv"])
    if rc != 0:
        errs = parse_lean_errors(out)
        broken.append(("model:m17drv", "model driver does not build:\n" + "\n".join(f"{f}:{l}: {m}" for f, l, m in errs[:10]) + out[-1500:]))
    # 3. theorems
    rc, out = lake_build(prop.lean_targets)
    failed_decls = set()
    if rc != 0:
        errs = parse_lean_errors(out)
        for f, l, m in errs:
            d = enclosing_decl(f, l)
            failed_decls.add(d)
            broken.append((f"theorem:{d}", f"{f}:{l}: {m}"))
        if not errs:
            broken.append(("lake:build", out[-3000:]))
    # 4. audits
    ctx.obligations = list(prop.theorems)
    if rc == 0:
        for mod, ths in prop.theorem_modules().items():
            rc2, axs, raw = audit_axioms(mod, ths)
            for t in ths:
                if t not in axs:
                    broken.append((f"audit:{t}", "theorem not found by #print axioms:\n" + raw[-800:]))
                    continue
                extra = [a for a in axs[t] if a not in TRUSTED_AXIOMS]
                if extra:
                    broken.append((f"audit:{t}", f"depends on non-trusted axioms {extra}"))
                else:
                    ctx.discharged.append(t)
    hits = audit_text()
    if hits:
        broken.append(("audit:text", "forbidden tokens in Lean sources: " + "; ".join(hits[:10])))
    # 5. thorough tier: independent re-check of the compiled property modules with leanchecker (one module per call)
    if rc == 0 and ctx.tier == "thorough":
        for mod in prop.lean_targets:
            with Lock("lake"):
                rc3, out3 = sh(["lake", "env", "leanchecker", mod], cwd=LEAN, timeout=1800)
            if rc3 != 0:
                broken.append((f"leanchecker:{mod}", out3[-1500:]))
            else:
                ctx.notes.append(f"leanchecker re-checked {mod}")
    return broken


def run_check(ctx, prop):
    known = load_known()
    broken = proofs(ctx, prop)
    model_ok = os.path.exists(drv_exe()) and not any(n.startswith("model:") or n.startswith("translator:") for n, _ in broken)
    ctx.model_ok = model_ok
    # correspondence + oracles (run even when proofs broke: this is the search for a failing input)
    try:
        prop.run(ctx)
    except BuildError as e:
        broken.append(("harness:" + e.what, e.log))
    concrete = [v for v in ctx.violations if v.concrete]
    nonconc = [v for v in ctx.violations if not v.concrete]
    lines = []
    nviol = 0
    for v in concrete:
        k = is_known(ctx.pid, v, known)
        if k:
            lines.append(f"KNOWN-FINDING: property={ctx.pid} {k.get('what', v.what)}")
        else:
            nviol += 1
            if nviol <= 5:      # a handful of replays is enough; the count is in the evidence
                p = write_replay(ctx, v, nviol)
                lines.append(f"VIOLATION property={ctx.pid} replay={p}")
                print(f"  -> {v.what}")
    unknown_concrete = nviol
    if (broken or nonconc) and unknown_concrete == 0:
        # the tie or a proof obligation is broken and no failing input was found
        detail = {"broken_obligations": [{"name": n, "detail": d[-3000:]} for n, d in broken],
                  "disagreements": [v.replay for v in nonconc], "what": [v.what for v in nonconc]}
        v = Violation("tie-broken", "; ".join([n for n, _ in broken] + [x.what for x in nonconc])[:400], detail, concrete=False)
        # a broken tie that is fully explained by *known* concrete findings is not reported again
        p = write_replay(ctx, v, 0)
        for n, d in broken:
            print(f"  broken: {n}: {d.strip().splitlines()[0][:200] if d.strip() else ''}")
        for x in nonconc:
            print(f"  disagreement: {x.what[:300]}")
        lines.append(f"VIOLATION property={ctx.pid} replay={p} no-failing-input-found")
        nviol += 1
    elif broken and unknown_concrete:
        for n, d in broken:
            print(f"  broken: {n}: {d.strip().splitlines()[0][:200] if d.strip() else ''}")
    write_evidence(ctx, prop, prop.level, nviol)
    for l in lines:
        print(l)
    print(f"[{ctx.pid}] tier={ctx.tier} seed={ctx.seed} obligations={len(ctx.discharged)}/{len(ctx.obligations)} "
          f"evaluations={ctx.evaluations} violations={nviol} wall={time.time()-ctx.t0:.1f}s")
    return 1 if nviol else 0


def replay(ctx, prop, path):
    doc = json.load(open(path))
    r = doc.get("replay", {})
    print(f"replay of {doc.get('signature')}: {doc.get('what')}")
    if hasattr(prop, "replay"):
        return prop.replay(ctx, doc)
    ops = r.get("ops")
    if not ops and r.get("ops_file"):
        import gzip
        ops = gzip.open(r["ops_file"], "rt").read().split("\n")
        ops = [o for o in ops if o]
    if not ops:
        print(json.dumps(r, indent=1)[:4000])
        return 0
    exe = prop.impl_driver(ctx)
    out, rc, err = ctx.run_lines(exe, ops)
    print("implementation:", [o[:600] for o in out], "rc", rc)
    if err.strip():
        print(err[-2000:])
    try:
        print("model:         ", [o[:600] for o in ctx.run_model(ops)])
    except Exception as e:
        print("model driver failed:", e)
    return 0

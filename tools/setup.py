#!/usr/bin/env python3
"""MANIFEST.setup_cmd: build the framework from files on disk only (offline)."""
import sys, os
HERE = os.path.dirname(os.path.abspath(__file__))
sys.path.insert(0, HERE)
from lib import core

def main():
    core.regen()
    rc, out = core.lake_build([])       # default targets: library (all proofs) + m17drv
    print(out[-3000:])
    if rc != 0:
        print("setup: lake build failed")
        return 1
    from props import REGISTRY
    done = set()
    for pid, p in sorted(REGISTRY.items()):
        try:
            for exe in p.setup_drivers():
                if exe not in done:
                    done.add(exe)
                    print("built", exe)
        except core.BuildError as e:
            print("setup: harness build failed:", e.what, e.log[-2000:])
            return 1
    return 0

if __name__ == "__main__":
    sys.exit(main())

#!/usr/bin/env python3
"""writes MANIFEST.json from the registry of property checkers (single source of truth: tools/props/*)"""
import json, os, sys
HERE = os.path.dirname(os.path.abspath(__file__))
sys.path.insert(0, HERE)
from props import REGISTRY
V = os.path.dirname(HERE)
props = [json.loads(l)["id"] for l in open(os.path.join(V, "properties.jsonl"))]
checks = []
for pid in props:
    if pid not in REGISTRY:
        continue
    p = REGISTRY[pid]
    checks.append({
        "property_id": pid,
        "quick_cmd": f"python3 tools/check.py {pid} --tier quick",
        "thorough_cmd": f"python3 tools/check.py {pid} --tier thorough",
        "evidence_file": f"/verif/evidence/{pid}.json",
        "replay_cmd_template": f"python3 tools/check.py {pid} --replay {{path}}",
        "engine": "lean4-proof+correspondence",
        "level_claimed": {"category": p.level, "text": p.level_text, "design_ref": p.design_ref},
        "level_note": p.level_note,
        "technique": p.technique,
    })
NOT_YET = {}
na = [{"property_id": pid, "reason": NOT_YET.get(pid, "check not built yet in this revision of /verif (planned in DESIGN.md section 5); no claim is made")}
      for pid in props if pid not in REGISTRY]
m = {
    "version": 1,
    "setup_cmd": "python3 tools/setup.py",
    "hooks": {
        "guard": "M17CXX_VERIF",
        "enable": "harness programs are compiled by tools/lib/core.py with -DM17CXX_VERIF against /repo's working tree (header-only library; apps are #included by the harness)",
        "baseline_off_cmd": "cmake --build /repo/_build -j16 -- -k0 ; ctest --test-dir /repo/_build -j8 --timeout 900",
        "source_commits": ["d336da8"],
        "add_only": True,
    },
    "engines": [{"name": "lean4-proof+correspondence", "path": "tools/check.py",
                 "serves_properties": [c["property_id"] for c in checks],
                 "kind_free_text": "Lean 4 theorems about an executable model (lean/M17), constants regenerated from the current headers (harness/dump_tables.cpp -> lean/M17/Gen), model tied to the C++ by differential runs through a line protocol (lean/Main.lean vs harness/drv_*.cpp under ASan+UBSan)"}],
    "checks": checks,
    "not_applicable": na,
    "notes": "See DESIGN.md. Every check regenerates Gen from /repo's working tree, rebuilds its Lean proof module, audits axioms, rebuilds the C++ drivers and runs the correspondence and oracle streams. known_findings.json lists fixed/open findings.",
}
json.dump(m, open(os.path.join(V, "MANIFEST.json"), "w"), indent=1)
print("wrote MANIFEST.json with", len(checks), "checks;", len(na), "not_applicable")

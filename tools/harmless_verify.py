#!/usr/bin/env python3
"""
Run quick checks against a behaviour-preserving refactoring of /repo (written by a sub-agent that never saw /verif): none of them may alarm.

  M17_REPO=<scratch clone> SEED_DEST=/verif tools/harmless_verify.py <id> <dir with patch.diff notes.md> <PROP>[,PROP...]

The patch is applied to the scratch clone named by M17_REPO (never to /repo), the listed checks run from this copy of /verif, the clone is restored,
and the outcome is stored as $SEED_DEST/seeded/harmless/<id>/{patch.diff, notes.md, meta.json}.
"""
import sys, os, subprocess, json, shutil, time
V = os.path.dirname(os.path.dirname(os.path.abspath(__file__)))
REPO = os.environ["M17_REPO"]
DEST = os.environ.get("SEED_DEST", V)


def sh(cmd, cwd=None, timeout=5400):
    p = subprocess.run(cmd, shell=True, cwd=cwd, stdout=subprocess.PIPE, stderr=subprocess.STDOUT, text=True, timeout=timeout)
    return p.returncode, p.stdout


def main():
    hid, src, props = sys.argv[1], os.path.abspath(sys.argv[2]), sys.argv[3].split(",")
    sh(f"git -C {REPO} checkout -- .")
    rc, out = sh(f"git -C {REPO} apply {src}/patch.diff")
    if rc != 0:
        print("patch does not apply:", out); return 1
    meta = {"id": hid, "kind": "harmless refactoring (behaviour preserving)", "ran": []}
    try:
        for p in props:
            t0 = time.time()
            rc, out = sh(f"python3 tools/check.py {p} --tier quick", cwd=V)
            viol = [l for l in out.split("\n") if l.startswith("VIOLATION")]
            why = [l for l in out.split("\n") if l.startswith("  ->") or l.startswith("  broken") or l.startswith("  disagreement")]
            meta["ran"].append({"check": f"tools/check.py {p} --tier quick", "exit": rc, "violation_lines": viol[:3], "detail": [w[:300] for w in why[:3]], "wall_s": round(time.time() - t0, 1)})
            print(f"[{hid}] check {p}: exit {rc}; {viol[:1]} {[w[:200] for w in why[:1]]}")
    finally:
        sh(f"git -C {REPO} checkout -- .")
    meta["alarms"] = [r["check"] for r in meta["ran"] if r["exit"] != 0 or r["violation_lines"]]
    dst = os.path.join(DEST, "seeded", "harmless", hid)
    os.makedirs(dst, exist_ok=True)
    for f in ("patch.diff", "notes.md"):
        if os.path.exists(os.path.join(src, f)):
            shutil.copy(os.path.join(src, f), os.path.join(dst, f))
    json.dump(meta, open(os.path.join(dst, "meta.json"), "w"), indent=1)
    print(f"[{hid}] alarms: {meta['alarms']}")
    return 0


if __name__ == "__main__":
    sys.exit(main())
